#!/usr/bin/env python3
"""translate_c11.py — regenerate lean/ChialispModel/Generated/Opts.lean from the CURRENT Rust
sources: the option derivations of every compile entry point (library, CLI `run`, `cldb`,
dependency scan), `DefaultCompilerOpts::new`'s defaults, the `KNOWN_DIALECTS` table and
`get_optimizer`'s thresholds.

Purpose-built extractor (regex + bracket matching on the specific functions).  When the code no
longer has a shape it can read it raises ExtractError: the caller reports a broken proof
obligation and falls back to searching for a failing input with the end-to-end oracle."""
import hashlib
import os
import re
import sys

sys.path.insert(0, os.path.dirname(os.path.abspath(__file__)))
from rustsrc import (ExtractError, blank_comments, calls, find_fn, find_impl, fn_body,  # noqa: E402
                     if_let_blocks, match_bracket, method_chain, split_top, squeeze, statements, the_call)

SETTERS = {
    "set_dialect": "setDialect",
    "set_optimize": "setOptimize",
    "set_frontend_opt": "setFrontendOpt",
    "set_stdenv": "setStdenv",
    "set_search_paths": "setSearchPaths",
    "set_disassembly_ver": "setDisassemblyVer",
}

FILES = {
    "clvmc": "src/classic/clvm_tools/clvmc.rs",
    "comp_input": "src/classic/clvm_tools/comp_input.rs",
    "cmds": "src/classic/clvm_tools/cmds.rs",
    "dialect": "src/compiler/dialect.rs",
    "compiler": "src/compiler/compiler.rs",
    "optimize": "src/compiler/optimize/mod.rs",
    "preprocessor": "src/compiler/preprocessor/mod.rs",
    "clvm_mod": "src/classic/clvm/mod.rs",
    "py_api": "src/py/api.rs",
    "wasm_api": "wasm/src/api.rs",
}


# ------------------------------------------------------------------------------------------
# boolean / integer expressions  ->  Lean
# ------------------------------------------------------------------------------------------

TOK = re.compile(r"\s*(\|\||&&|==|!=|>=|<=|>|<|!|\(|\)|[0-9][0-9_]*|[A-Za-z_][A-Za-z0-9_]*(?:(?:::|\.)[A-Za-z_][A-Za-z0-9_]*)*(?:\(\))?)")


def tokenize(e):
    toks, i = [], 0
    e = e.strip()
    while i < len(e):
        m = TOK.match(e, i)
        if not m:
            raise ExtractError(f"cannot tokenise expression {e!r} at {e[i:i + 20]!r}")
        toks.append(m.group(1))
        i = m.end()
    return toks


class ExprTr:
    """recursive descent over `||`, `&&`, `!`, comparisons of integer atoms, bool atoms."""

    def __init__(self, env, what):
        self.env = env        # rust token -> (lean text, 'bool' | 'int')
        self.what = what

    def tr(self, e):
        self.t = tokenize(e)
        self.i = 0
        r, ty = self.p_or()
        if self.i != len(self.t):
            raise ExtractError(f"{self.what}: trailing tokens in {e!r}")
        if ty != "bool":
            raise ExtractError(f"{self.what}: expression {e!r} is not boolean")
        return r

    def peek(self):
        return self.t[self.i] if self.i < len(self.t) else None

    def eat(self):
        self.i += 1
        return self.t[self.i - 1]

    def p_or(self):
        l, ty = self.p_and()
        while self.peek() == "||":
            self.eat()
            r, ty2 = self.p_and()
            self.need_bool(ty, ty2)
            l = f"({l} || {r})"
        return l, ty

    def p_and(self):
        l, ty = self.p_not()
        while self.peek() == "&&":
            self.eat()
            r, ty2 = self.p_not()
            self.need_bool(ty, ty2)
            l = f"({l} && {r})"
        return l, ty

    def need_bool(self, *tys):
        for t in tys:
            if t != "bool":
                raise ExtractError(f"{self.what}: boolean operator on a non-boolean")

    def p_not(self):
        if self.peek() == "!":
            self.eat()
            r, ty = self.p_not()
            self.need_bool(ty)
            return f"(!{r})", "bool"
        return self.p_cmp()

    def p_cmp(self):
        l, ty = self.p_atom()
        op = self.peek()
        if op in ("==", "!=", ">", "<", ">=", "<="):
            self.eat()
            r, ty2 = self.p_atom()
            if ty != ty2:
                raise ExtractError(f"{self.what}: comparison of {ty} with {ty2}")
            if ty == "int":
                lop = {"==": "=", "!=": "≠", ">": ">", "<": "<", ">=": "≥", "<=": "≤"}[op]
                return f"decide ({l} {lop} {r})", "bool"
            if op == "==":
                return f"({l} == {r})", "bool"
            if op == "!=":
                return f"({l} != {r})", "bool"
            raise ExtractError(f"{self.what}: ordering on booleans")
        return l, ty

    def p_atom(self):
        t = self.peek()
        if t is None:
            raise ExtractError(f"{self.what}: expression ends early")
        self.eat()
        if t == "(":
            r, ty = self.p_or()
            if self.peek() != ")":
                raise ExtractError(f"{self.what}: missing )")
            self.eat()
            return r, ty
        if t in ("true", "false"):
            return t, "bool"
        if re.fullmatch(r"[0-9][0-9_]*", t):
            return f"({int(t.replace('_', ''))} : Int)", "int"
        if t in self.env:
            return self.env[t]
        raise ExtractError(f"{self.what}: unknown name {t!r} in a derivation expression "
                           f"(known: {sorted(self.env)})")


# ------------------------------------------------------------------------------------------
# helpers
# ------------------------------------------------------------------------------------------

def read(repo, key):
    p = os.path.join(repo, FILES[key])
    try:
        return blank_comments(open(p).read())
    except OSError as e:
        raise ExtractError(f"cannot read {p}: {e}")


def const_int(src, name):
    m = re.search(r"\bconst\s+" + name + r"\s*:\s*\w+\s*=\s*([0-9_]+)\s*;", src)
    if not m:
        raise ExtractError(f"const {name} not found")
    return int(m.group(1).replace("_", ""))


def lean_chain(base, segs, exprtr, what, allowed=None, passthrough=None):
    """turn [(setter, [arg])] into `base |>.setX (..) |>...`.
    passthrough: rust arg text -> lean text for non-boolean arguments."""
    out = base
    for name, args in segs:
        if name not in SETTERS:
            raise ExtractError(f"{what}: call of {name}() in an option chain is not a known setter")
        if allowed is not None and name not in allowed:
            raise ExtractError(f"{what}: unexpected setter {name}() at this site")
        if len(args) != 1:
            raise ExtractError(f"{what}: {name} with {len(args)} arguments")
        a = squeeze(args[0])
        if name in ("set_optimize", "set_frontend_opt", "set_stdenv"):
            val = exprtr.tr(a)
        else:
            if passthrough is None or a not in passthrough:
                raise ExtractError(f"{what}: argument {a!r} of {name} is not one of {sorted(passthrough or {})}")
            val = passthrough[a]
        out += f" |>.{SETTERS[name]} ({val})"
    return out


def find_statement(body, regex, what):
    """the unique top-level-or-nested statement text matching regex (searched in raw body)"""
    ms = list(re.finditer(regex, body))
    if len(ms) != 1:
        raise ExtractError(f"{what}: expected exactly one match of /{regex}/, found {len(ms)}")
    return ms[0]


def rhs_until_semicolon(body, start):
    """expression text from `start` to the `;` at bracket depth 0"""
    i, n = start, len(body)
    while i < n:
        c = body[i]
        if c in "([{":
            i = match_bracket(body, i) + 1
            continue
        if c == '"':
            from rustsrc import skip_string
            i = skip_string(body, i)
            continue
        if c == ";":
            return body[start:i]
        i += 1
    raise ExtractError("statement without terminating ;")


def lean_str(s):
    return '"' + s.replace("\\", "\\\\").replace('"', '\\"') + '"'


def lean_bytes(s):
    return "[" + ", ".join(str(b) for b in s.encode()) + "]"


# ------------------------------------------------------------------------------------------
# extraction, site by site
# ------------------------------------------------------------------------------------------

def extract_dialects(repo):
    src = read(repo, "dialect")
    base = const_int(src, "OPT_STRATEGY_BASE_STEPPING")
    mx = const_int(src, "MAX_STEPPING")
    # struct AcceptedDialect: exactly the three fields, derive(Default)
    m = re.search(r"#\[derive\(([^)]*)\)\]\s*pub\s+struct\s+AcceptedDialect\s*\{", src)
    if not m:
        raise ExtractError("struct AcceptedDialect (with a derive list) not found")
    if "Default" not in [x.strip() for x in m.group(1).split(",")]:
        raise ExtractError("AcceptedDialect no longer derives Default (the no-sigil dialect is its default value)")
    o = m.end() - 1
    fields = [squeeze(f) for f in split_top(src[o + 1:match_bracket(src, o)])]
    want = ["pub stepping: Option<i32>", "pub strict: bool", "pub int_fix: bool"]
    if fields != want:
        raise ExtractError(f"AcceptedDialect fields changed: {fields} (model has {want})")
    # dialect_list = [ ("name", DialectDescription { accepted: AcceptedDialect {...}, content: ... }), ... ]
    m = re.search(r"\blet\s+dialect_list\s*=\s*\[", src)
    if not m:
        raise ExtractError("KNOWN_DIALECTS: `let dialect_list = [` not found")
    o = m.end() - 1
    items = split_top(src[o + 1:match_bracket(src, o)])
    table = []
    for it in items:
        it = it.strip()
        if not it.startswith("("):
            raise ExtractError(f"KNOWN_DIALECTS entry is not a tuple: {it[:40]!r}")
        parts = split_top(it[1:match_bracket(it, 0)])
        if len(parts) != 2:
            raise ExtractError("KNOWN_DIALECTS entry is not a pair")
        nm = re.fullmatch(r'"([^"\\]*)"', parts[0].strip())
        if not nm:
            raise ExtractError(f"KNOWN_DIALECTS key is not a plain string literal: {parts[0]!r}")
        m2 = re.search(r"\baccepted\s*:\s*AcceptedDialect\s*\{", parts[1])
        if not m2:
            raise ExtractError(f"KNOWN_DIALECTS[{nm.group(1)}]: `accepted: AcceptedDialect {{` not found")
        o2 = m2.end() - 1
        d = {"stepping": None, "strict": None, "int_fix": None}
        rest_default = False
        for f in split_top(parts[1][o2 + 1:match_bracket(parts[1], o2)]):
            f = squeeze(f)
            if f == "..AcceptedDialect::default()":
                rest_default = True
                continue
            k, _, v = f.partition(":")
            k, v = k.strip(), v.strip()
            if k not in d:
                raise ExtractError(f"KNOWN_DIALECTS[{nm.group(1)}]: unknown field {k}")
            if k == "stepping":
                ms = re.fullmatch(r"Some\(\s*([0-9]+)\s*\)", v)
                if ms:
                    d[k] = int(ms.group(1))
                elif v == "None":
                    d[k] = "none"
                else:
                    raise ExtractError(f"KNOWN_DIALECTS[{nm.group(1)}]: stepping {v!r}")
            else:
                if v not in ("true", "false"):
                    raise ExtractError(f"KNOWN_DIALECTS[{nm.group(1)}]: {k} = {v!r}")
                d[k] = v
        for k in d:
            if d[k] is None:
                if not rest_default:
                    raise ExtractError(f"KNOWN_DIALECTS[{nm.group(1)}]: field {k} missing")
                d[k] = "none" if k == "stepping" else "false"
        table.append((nm.group(1), d))
    if not table:
        raise ExtractError("KNOWN_DIALECTS is empty")
    names = [n for n, _ in table]
    if len(set(names)) != len(names):
        raise ExtractError("KNOWN_DIALECTS has duplicate keys (HashMap insert order would matter)")
    # the list must be what gets inserted
    if not re.search(r"for\s*\(\s*n\s*,\s*v\s*\)\s*in\s+dialect_list\.iter\(\)\s*\{\s*dialects\.insert\(\s*n\.to_string\(\)\s*,\s*v\.clone\(\)\s*\)", src):
        raise ExtractError("KNOWN_DIALECTS: the insertion loop over dialect_list changed shape")
    # detect_modern / include_dialect: the pieces the hand model mirrors
    body = fn_body(src, "include_dialect")
    if 'b"include"' not in body or "KNOWN_DIALECTS.get(" not in body:
        raise ExtractError("include_dialect: keyword test or table lookup changed shape")
    return {"base": base, "max": mx, "table": table}


def extract_defaults(repo):
    src = read(repo, "compiler")
    o, c = find_impl(src, r"impl\s+DefaultCompilerOpts\s*\{")
    body = fn_body(src, "new", o, c)
    m = re.search(r"DefaultCompilerOpts\s*\{", body)
    if not m:
        raise ExtractError("DefaultCompilerOpts::new: struct literal not found")
    oo = m.end() - 1
    fields = {}
    for f in split_top(body[oo + 1:match_bracket(body, oo)]):
        k, _, v = f.partition(":")
        fields[k.strip()] = squeeze(v)
    need = {"stdenv", "optimize", "frontend_opt", "include_dirs", "disassembly_ver", "dialect"}
    if not need <= set(fields):
        raise ExtractError(f"DefaultCompilerOpts::new: fields missing {sorted(need - set(fields))}")
    for k in ("stdenv", "optimize", "frontend_opt"):
        if fields[k] not in ("true", "false"):
            raise ExtractError(f"DefaultCompilerOpts::new: {k} = {fields[k]!r} is not a literal")
    m = re.fullmatch(r"vec!\[(.*)\]", fields["include_dirs"])
    if not m:
        raise ExtractError(f"DefaultCompilerOpts::new: include_dirs = {fields['include_dirs']!r}")
    dirs = []
    for d in split_top(m.group(1)):
        md = re.fullmatch(r'"([^"\\]*)"\.to_string\(\)', d.strip())
        if not md:
            raise ExtractError(f"DefaultCompilerOpts::new: include dir {d!r}")
        dirs.append(md.group(1))
    if fields["disassembly_ver"] != "None":
        raise ExtractError(f"DefaultCompilerOpts::new: disassembly_ver = {fields['disassembly_ver']!r}")
    if fields["dialect"] != "AcceptedDialect::default()":
        raise ExtractError(f"DefaultCompilerOpts::new: dialect = {fields['dialect']!r}")
    return {"stdenv": fields["stdenv"], "optimize": fields["optimize"], "frontend_opt": fields["frontend_opt"],
            "dirs": dirs}


def detect_source(body, what):
    """canonical description of the value given to detect_modern at a site"""
    args = the_call(body, "detect_modern", f"in {what}")
    if len(args) != 2:
        raise ExtractError(f"{what}: detect_modern called with {len(args)} arguments")
    return squeeze(args[1])


def trace_let(body, var, what):
    m = re.search(r"\blet\s+(?:mut\s+)?" + re.escape(var) + r"\b[^=;]*=\s*", body)
    if not m:
        raise ExtractError(f"{what}: `let {var} =` not found")
    return squeeze(rhs_until_semicolon(body, m.end()))


def extract_lib(repo):
    src = read(repo, "clvmc")
    body = fn_body(src, "compile_clvm_text_maybe_opt")
    # what detect_modern is applied to: assemble_from_ir(read_ir(text))
    darg = detect_source(body, "compile_clvm_text_maybe_opt")
    asm = trace_let(body, darg, "compile_clvm_text_maybe_opt")
    if not re.fullmatch(r"assemble_from_ir\(allocator, Rc::new\(ir_src\)\)\?", asm):
        raise ExtractError(f"compile_clvm_text_maybe_opt: {darg} = {asm!r} (expected the assembled IR)")
    ir = trace_let(body, "ir_src", "compile_clvm_text_maybe_opt")
    if not ir.startswith("read_ir(text)"):
        raise ExtractError(f"compile_clvm_text_maybe_opt: ir_src = {ir!r} (expected read_ir(text))")
    if trace_let(body, "dialect", "compile_clvm_text_maybe_opt") != f"detect_modern(allocator, {darg})":
        raise ExtractError("compile_clvm_text_maybe_opt: `dialect` is not detect_modern's result")
    blocks = if_let_blocks(body, r"^Some\(\s*stepping\s*\)\s*=\s*dialect\.stepping$")
    if len(blocks) != 1 or blocks[0][2] is None:
        raise ExtractError("compile_clvm_text_maybe_opt: `if let Some(stepping) = dialect.stepping {..} else {..}` not found")
    _, then, els, _ = blocks[0]
    # modern branch
    rhs = trace_let(then, "opts", "compile_clvm_text_maybe_opt/modern")
    head, segs = method_chain(rhs)
    if head != "opts":
        raise ExtractError(f"compile_clvm_text_maybe_opt: option chain starts from {head!r}, not the caller's opts")
    env = {"do_optimize": ("doOptimize", "bool"), "stepping": ("stepping", "int")}
    chain = lean_chain("base", segs, ExprTr(env, "clvmc.rs"), "compile_clvm_text_maybe_opt",
                       allowed={"set_dialect", "set_optimize", "set_frontend_opt", "set_stdenv"},
                       passthrough={"dialect": "d", "dialect.clone()": "d"})
    cf = the_call(then, "compile_file", "in compile_clvm_text_maybe_opt")
    if len(cf) != 5 or squeeze(cf[2]) not in ("opts.clone()", "opts") or squeeze(cf[3]) != "text":
        raise ExtractError(f"compile_clvm_text_maybe_opt: compile_file arguments changed: {cf}")
    fin = the_call(then, "maybe_finalize_program_via_classic_optimizer", "in compile_clvm_text_maybe_opt")
    if len(fin) != 5 or squeeze(fin[4]) != "&unopt_res":
        raise ExtractError(f"compile_clvm_text_maybe_opt: maybe_finalize arguments changed: {fin}")
    if trace_let(then, "unopt_res", "compile_clvm_text_maybe_opt").split("(")[0] != "compile_file":
        raise ExtractError("compile_clvm_text_maybe_opt: unopt_res is not compile_file's result")
    post = ExprTr(env, "clvmc.rs post-optimise flag").tr(squeeze(fin[3]))
    if not re.search(r"Ok\(\s*convert_to_clvm_rs\(\s*allocator\s*,\s*res\s*\)\?\s*\)", then):
        raise ExtractError("compile_clvm_text_maybe_opt: result is no longer convert_to_clvm_rs(allocator, res)")
    if not trace_let(then, "res", "compile_clvm_text_maybe_opt").startswith("maybe_finalize_program_via_classic_optimizer("):
        raise ExtractError("compile_clvm_text_maybe_opt: res is not the finalised program")
    if "classic_with_opts" in then:
        raise ExtractError("compile_clvm_text_maybe_opt: classic_with_opts now influences the modern branch")
    # classic branch
    if trace_let(els, "compile_invoke_code", "classic branch") != "run(allocator)":
        raise ExtractError("compile_clvm_text_maybe_opt: classic branch no longer runs stages::run")
    if not re.search(r"use\s+crate::classic::clvm_tools::stages::run\s*;", src):
        raise ExtractError("clvmc.rs: `run` is not stages::run")
    rp = the_call(els, "run_program_for_search_paths", "in classic branch")
    if [squeeze(a) for a in rp] != ["input_path", "&opts.get_search_paths()", "false"]:
        raise ExtractError(f"compile_clvm_text_maybe_opt: classic runner arguments changed: {rp}")
    if not re.search(r"new_pair\(\s*assembled_sexp\s*,\s*NodePtr::NIL\s*\)", els):
        raise ExtractError("compile_clvm_text_maybe_opt: classic input is no longer (program . ())")
    # compile_clvm_text: the constant handed down as do_optimize
    b2 = fn_body(src, "compile_clvm_text")
    a2 = [squeeze(a) for a in the_call(b2, "compile_clvm_text_maybe_opt", "in compile_clvm_text")]
    if len(a2) != 7 or a2[1] not in ("true", "false") or a2[2] != "opts" or a2[4] != "text":
        raise ExtractError(f"compile_clvm_text: arguments passed down changed: {a2}")
    # compile_clvm_inner -> compile_clvm_text with the same opts/text
    b3 = fn_body(src, "compile_clvm_inner")
    a3 = [squeeze(a) for a in the_call(b3, "compile_clvm_text", "in compile_clvm_inner")]
    if len(a3) != 6 or a3[1] not in ("opts.clone()", "opts") or a3[3] != "text":
        raise ExtractError(f"compile_clvm_inner: arguments passed down changed: {a3}")
    # compile_clvm: base options of the file-to-file entry
    b4 = fn_body(src, "compile_clvm")
    base_chain = base_opts_chain(trace_let(b4, "opts", "compile_clvm"), "compile_clvm", "search_paths")
    a4 = [squeeze(a) for a in the_call(b4, "compile_clvm_inner", "in compile_clvm")]
    if len(a4) != 7 or a4[1] != "opts" or a4[4] != "&text":
        raise ExtractError(f"compile_clvm: arguments passed down changed: {a4}")
    if trace_let(b4, "text", "compile_clvm").split("(")[0] != "fs::read_to_string":
        raise ExtractError("compile_clvm: text is not the file's content")
    return {"chain": chain, "post": post, "const": a2[1], "base": base_chain,
            "detect": "assemble_from_ir(read_ir(TEXT))"}


def base_opts_chain(rhs, what, sp_name):
    head, segs = method_chain(rhs)
    if not re.fullmatch(r"Rc::new\(DefaultCompilerOpts::new\([^()]*(\(\))?[^()]*\)\)|def_opts", head):
        raise ExtractError(f"{what}: base options are {head!r}, not DefaultCompilerOpts::new(..)")
    return lean_chain("defaultOpts", segs, ExprTr({}, what), what, allowed={"set_search_paths"},
                      passthrough={sp_name: "sp", "&" + sp_name: "sp"})


def extract_bindings(repo):
    """python and wasm bindings: the base options handed to compile_clvm_text / compile_clvm_inner"""
    out = {}
    src = read(repo, "py_api")
    body = fn_body(src, "run_clvm_compilation")
    d = trace_let(body, "def_opts", "py run_clvm_compilation")
    if not re.fullmatch(r"Rc::new\(DefaultCompilerOpts::new\(&path_string\)\)", d):
        raise ExtractError(f"py api: def_opts = {d!r}")
    out["py"] = base_opts_chain(trace_let(body, "opts", "py run_clvm_compilation"), "py run_clvm_compilation", "search_paths")
    cs = calls(body, "clvmc::compile_clvm_text")
    if len(cs) != 1 or squeeze(cs[0][1][1]) != "opts.clone()" or squeeze(cs[0][1][3]) != "&file_content":
        raise ExtractError("py api: compile_clvm_text call changed shape")
    src = read(repo, "wasm_api")
    m = re.search(r"\blet\s+opts\s*=\s*(Rc::new\(DefaultCompilerOpts::new\(&filename\)\)[^;]*);\s*match\s+compile_clvm_inner\(", src)
    if not m:
        raise ExtractError("wasm api: `let opts = Rc::new(DefaultCompilerOpts::new(&filename))…; match compile_clvm_inner(` not found")
    out["wasm"] = base_opts_chain(m.group(1), "wasm compile", "search_paths")
    return out


def extract_cli(repo):
    src = read(repo, "comp_input")
    o, c = find_impl(src, r"impl\s+RunAndCompileInputData\s*\{")
    body = fn_body(src, "new", o, c)
    darg = detect_source(body, "RunAndCompileInputData::new")
    if darg != "program.parsed":
        raise ExtractError(f"RunAndCompileInputData::new: detect_modern applied to {darg!r}")
    prog = trace_let(body, "program", "RunAndCompileInputData::new")
    if not prog.startswith('parse_tool_input_sexp(allocator, "path_or_code", parsed_args,'):
        raise ExtractError(f"RunAndCompileInputData::new: program = {prog!r}")
    pt = fn_body(src, "parse_tool_input_sexp")
    if not re.search(r"read_ir\(&use_sexp_text\)", pt) or not re.search(r"parsed:\s*assemble_from_ir\(allocator,\s*Rc::new\(v\)\)", pt):
        raise ExtractError("parse_tool_input_sexp: text branch no longer assembles read_ir(text)")
    # do_optimize := the -O flag
    do = trace_let(body, "do_optimize", "RunAndCompileInputData::new")
    if do != 'parsed_args .get("optimize") .map(|x| matches!(x, ArgumentValue::ArgBool(true))) .unwrap_or_else(|| false)':
        raise ExtractError(f"RunAndCompileInputData::new: do_optimize = {do!r} (expected the `optimize` flag)")
    sp = trace_let(body, "search_paths", "RunAndCompileInputData::new")
    if not sp.startswith('if let Some(ArgumentValue::ArgArray(v)) = parsed_args.get("include")'):
        raise ExtractError("RunAndCompileInputData::new: search_paths no longer come from `include`")
    rhs = trace_let(body, "opts", "RunAndCompileInputData::new")
    head, segs = method_chain(rhs)
    if not re.fullmatch(r"Rc::new\(DefaultCompilerOpts::new\(&program\.use_filename\(\)\)\)", head):
        raise ExtractError(f"RunAndCompileInputData::new: base options are {head!r}")
    env = {"do_optimize": ("doOptimize", "bool"), "stepping": ("stepping", "int")}
    tr = ExprTr(env, "comp_input.rs")
    passthrough = {"dialect": "d", "dialect.clone()": "d", "&search_paths": "sp",
                   "get_disassembly_ver(parsed_args)": "ver"}
    base = lean_chain("defaultOpts", segs, tr, "RunAndCompileInputData::new", passthrough=passthrough)
    gd = fn_body(src, "get_disassembly_ver")
    if 'p.get("operators_version")' not in gd or "return Some(*x as usize)" not in gd:
        raise ExtractError("get_disassembly_ver changed shape")
    blocks = if_let_blocks(body, r"^Some\(\s*stepping\s*\)\s*=\s*dialect\.stepping$")
    if len(blocks) != 1 or blocks[0][2] is not None:
        raise ExtractError("RunAndCompileInputData::new: `if let Some(stepping) = dialect.stepping {..}` (no else) not found")
    then = blocks[0][1]
    m = re.fullmatch(r"\s*opts\s*=\s*(.*?);\s*", then, re.S)
    if not m:
        raise ExtractError("RunAndCompileInputData::new: the stepping block is not a single `opts = …;`")
    head2, segs2 = method_chain(m.group(1))
    if head2 != "opts":
        raise ExtractError("RunAndCompileInputData::new: stepping block does not extend `opts`")
    refine = lean_chain("o", segs2, tr, "RunAndCompileInputData::new/stepping",
                        allowed={"set_optimize", "set_frontend_opt", "set_stdenv", "set_dialect"},
                        passthrough=passthrough)
    # the struct literal must store do_optimize / opts / dialect / search_paths unchanged
    m = re.search(r"Ok\(\s*RunAndCompileInputData\s*\{", body)
    if not m:
        raise ExtractError("RunAndCompileInputData::new: result literal not found")
    oo = m.end() - 1
    fl = [squeeze(f) for f in split_top(body[oo + 1:match_bracket(body, oo)])]
    for f in ("dialect", "do_optimize", "search_paths", "opts", "program"):
        if f not in fl:
            raise ExtractError(f"RunAndCompileInputData::new: field `{f}` is not stored by shorthand")
    # compile_modern
    cm = fn_body(src, "compile_modern", o, c)
    cf = [squeeze(a) for a in the_call(cm, "compile_file", "in compile_modern")]
    if len(cf) != 5 or cf[2] != "self.opts.clone()" or cf[3] != "&self.program.content":
        raise ExtractError(f"compile_modern: compile_file arguments changed: {cf}")
    fin = [squeeze(a) for a in the_call(cm, "maybe_finalize_program_via_classic_optimizer", "in compile_modern")]
    if len(fin) != 5 or fin[2] != "self.opts.clone()" or fin[4] != "&x":
        raise ExtractError(f"compile_modern: maybe_finalize arguments changed: {fin}")
    post = ExprTr({"self.do_optimize": ("doOptimize", "bool")}, "compile_modern post-optimise flag").tr(fin[3])
    if not re.search(r"unopt_res\.and_then\(\|x\|", cm):
        raise ExtractError("compile_modern: finalisation is no longer applied to compile_file's result")

    # cmds.rs: launch_tool and cldb
    csrc = read(repo, "cmds")
    lt = fn_body(csrc, "launch_tool")
    info = {"base": base, "refine": refine, "post": post}
    for fn, b in (("launch_tool", lt), ("cldb", fn_body(csrc, "cldb"))):
        if len(calls(b, "RunAndCompileInputData::new")) != 1:
            raise ExtractError(f"{fn}: RunAndCompileInputData::new is not called exactly once")
        a = calls(b, "RunAndCompileInputData::new")[0][1]
        if [squeeze(x) for x in a] != ["&mut allocator", "&parsed_args"]:
            raise ExtractError(f"{fn}: RunAndCompileInputData::new arguments changed")
        if not re.search(r"let\s+parsed\s*=\s*match\s+RunAndCompileInputData::new\(", b):
            raise ExtractError(f"{fn}: `parsed` is not RunAndCompileInputData::new's result")
        if not re.search(r'vec!\[\s*"-O"\.to_string\(\)\s*,\s*"--optimize"\.to_string\(\)\s*\]\s*,\s*Argument::new\(\)\s*\.set_action\(TArgOptionAction::StoreTrue\)', b):
            raise ExtractError(f"{fn}: the -O/--optimize store-true argument changed shape")
        if not re.search(r'vec!\[\s*"-i"\.to_string\(\)\s*,\s*"--include"\.to_string\(\)\s*\]', b):
            raise ExtractError(f"{fn}: the -i/--include argument changed shape")
        if not re.search(r"let\s+parsed_args\s*:\s*HashMap<String,\s*ArgumentValue>\s*=\s*match\s+parser\.parse_args\(&arg_vec\)", b):
            raise ExtractError(f"{fn}: parsed_args is not parser.parse_args(&arg_vec)")
    # launch_tool: operators-version default
    m = re.search(r'vec!\[\s*"--operators-version"\.to_string\(\)\s*\]\s*,\s*Argument::new\(\)\s*\.set_type\([^;]*?\)\s*\.set_default\(\s*ArgumentValue::ArgInt\(\s*(\w+)\s+as\s+i64\s*\)\s*\)', lt)
    if not m or m.group(1) != "OPERATORS_LATEST_VERSION":
        raise ExtractError("launch_tool: --operators-version default changed")
    info["cli_ver"] = "some operatorsLatestVersion"
    cl = fn_body(csrc, "cldb")
    info["cldb_ver"] = "none" if "--operators-version" not in cl else None
    if info["cldb_ver"] is None:
        raise ExtractError("cldb: now has an --operators-version argument (model says it has none)")
    # launch_tool: modern short-circuit guarded by the stepping test; classic = stages::run
    guards = [m.start() for m in re.finditer(r"\bif\s+parsed\.dialect\.stepping\.is_some\(\)\s*\{", lt)]
    cmpos = [m.start() for m in re.finditer(r"\.compile_modern\(", lt)]
    if len(cmpos) != 1:
        raise ExtractError("launch_tool: compile_modern is not called exactly once")
    guard = None
    for g in guards:
        ob = lt.find("{", g)
        cb = match_bracket(lt, ob)
        if ob < cmpos[0] < cb:
            guard = (g, ob, cb)
    if guard is None:
        raise ExtractError("launch_tool: compile_modern is not inside `if parsed.dialect.stepping.is_some() {`")
    blk = lt[guard[1] + 1:guard[2]]
    if not re.search(r"let\s+res\s*=\s*parsed\s*\.compile_modern\(&mut allocator, &mut symbol_table\)", squeeze(blk)):
        raise ExtractError("launch_tool: compile_modern is not applied to `parsed`")
    if not re.search(r"Ok\(r\)\s*=>\s*\{\s*stdout\.write_str\(&r\.to_string\(\)\);", blk):
        raise ExtractError("launch_tool: the modern result is no longer printed with to_string()")
    if not re.search(r"return;\s*$", blk.rstrip()):
        raise ExtractError("launch_tool: the modern branch no longer returns before the classic path")
    tail = lt[guard[2]:]
    m = re.search(r"let\s+run_script\s*=\s*match\s+parsed_args\.get\(\"stage\"\)\s*\{\s*Some\(ArgumentValue::ArgInt\(0\)\)\s*=>\s*stages::brun\(&mut allocator\),\s*_\s*=>\s*stages::run\(&mut allocator\),\s*\}", tail)
    if not m:
        raise ExtractError("launch_tool: classic run_script selection changed shape")
    rp = [squeeze(a) for a in the_call(lt, "run_program_for_search_paths", "in launch_tool")]
    if rp != ["&parsed.use_filename()", "&parsed.search_paths", "extra_symbol_info"]:
        raise ExtractError(f"launch_tool: classic runner arguments changed: {rp}")
    if not re.search(r"new_pair\(\s*parsed\.program\.parsed\s*,\s*parsed\.args\.parsed\s*\)", lt):
        raise ExtractError("launch_tool: classic input is no longer (program . args)")
    # cldb: compile_modern unguarded
    if "stepping" in re.sub(r'"[^"]*"', "", cl):
        raise ExtractError("cldb: now looks at the dialect stepping (model says it compiles every source with compile_modern)")
    if not re.search(r"_\s*=>\s*parsed\.compile_modern\(&mut allocator, &mut use_symbol_table\)", cl):
        raise ExtractError("cldb: source argument is no longer compiled with parsed.compile_modern")
    info["detect"] = "assemble_from_ir(read_ir(TEXT))"
    return info


def extract_deps(repo):
    src = read(repo, "preprocessor")
    body = fn_body(src, "gather_dependencies")
    darg = detect_source(body, "gather_dependencies")
    asm = trace_let(body, darg, "gather_dependencies")
    if not asm.startswith("assemble(&mut allocator, file_content)"):
        raise ExtractError(f"gather_dependencies: {darg} = {asm!r}")
    env = {"stepping": ("stepping", "int"), "dialect.strict": ("d.strict", "bool"),
           "dialect.int_fix": ("d.intFix", "bool")}
    tr = ExprTr(env, "preprocessor/mod.rs")
    pas = {"dialect": "d", "dialect.clone()": "d"}
    m = re.search(r"(?<![.\w])opts\s*=\s*opts\s*\.", body)
    if not m:
        raise ExtractError("gather_dependencies: `opts = opts.…` not found")
    first = rhs_until_semicolon(body, body.index("opts", m.start() + 4))
    head, segs = method_chain(first)
    if head != "opts":
        raise ExtractError("gather_dependencies: first chain does not extend opts")
    base = lean_chain("base", segs, tr, "gather_dependencies", passthrough=pas)
    blocks = if_let_blocks(body, r"^Some\(\s*stepping\s*\)\s*=\s*dialect\.stepping$")
    if len(blocks) != 1 or blocks[0][2] is not None:
        raise ExtractError("gather_dependencies: stepping block not found")
    m = re.fullmatch(r"\s*opts\s*=\s*(.*?);\s*", blocks[0][1], re.S)
    if not m:
        raise ExtractError("gather_dependencies: stepping block is not a single assignment")
    head2, segs2 = method_chain(m.group(1))
    if head2 != "opts":
        raise ExtractError("gather_dependencies: stepping block does not extend opts")
    refine = lean_chain("o", segs2, tr, "gather_dependencies/stepping", passthrough=pas)
    return {"base": base, "refine": refine}


def extract_optimizer(repo, consts):
    src = read(repo, "optimize")
    body = fn_body(src, "get_optimizer")
    blocks = if_let_blocks(body, r"^Some\(\s*s\s*\)\s*=\s*opts\.dialect\(\)\.stepping$")
    if len(blocks) != 1 or blocks[0][2] is not None:
        raise ExtractError("get_optimizer: `if let Some(s) = opts.dialect().stepping {` not found")
    header, then, _, start = blocks[0]
    env = {"s": ("s", "int"), "MAX_STEPPING": ("maxStepping", "int"),
           "OPT_STRATEGY_BASE_STEPPING": ("optStrategyBaseStepping", "int"),
           "opts.optimize()": ("optimize", "bool")}
    tr = ExprTr(env, "get_optimizer")
    # if c1 { return X } else if c2 { return Y } ...
    branches = []
    rest = then.strip()
    first = True
    while rest:
        m = re.match(r"(else\s+)?if\s+", rest)
        if not m or (first and m.group(1)):
            raise ExtractError(f"get_optimizer: unexpected statement {rest[:40]!r}")
        first = False
        o = rest.find("{", m.end())
        cond = rest[m.end():o]
        c = match_bracket(rest, o)
        blk = rest[o + 1:c]
        branches.append((tr.tr(squeeze(cond)), outcome(blk)))
        rest = rest[c + 1:].strip()
    after = body[body.index(then) + len(then) + 1:]
    final = outcome("return " + after.strip().rstrip(";") + ";") if after.strip() else None
    if final is None:
        raise ExtractError("get_optimizer: fall-through result not found")
    ors = [b for b in branches]
    lean = ""
    for cond, res in ors:
        lean += f"if {cond} then {res} else "
    lean += final
    return {"some": lean, "none": final, "min_literals": sorted(set(int(x) for x in re.findall(r"\bs\s*<\s*([0-9]+)", then)))}


def outcome(blk):
    b = squeeze(blk)
    if re.match(r"return Err\(", b):
        m = re.search(r'format!\("(minimum|maximum) language stepping', b)
        if not m:
            raise ExtractError(f"get_optimizer: unrecognised error branch {b[:60]!r}")
        return ".errTooOld" if m.group(1) == "minimum" else ".errTooNew"
    m = re.fullmatch(r"return Ok\(Box::new\((\w+)::new\(\)\)\)\s*;?", b)
    if m:
        return f'.strategy "{m.group(1)}"'
    raise ExtractError(f"get_optimizer: unrecognised branch {b[:60]!r}")


# ------------------------------------------------------------------------------------------
# rendering
# ------------------------------------------------------------------------------------------

def extract_all(repo):
    d = extract_dialects(repo)
    return {
        "dialects": d,
        "defaults": extract_defaults(repo),
        "lib": extract_lib(repo),
        "bind": extract_bindings(repo),
        "cli": extract_cli(repo),
        "deps": extract_deps(repo),
        "optimizer": extract_optimizer(repo, d),
        "latest": const_int(read(repo, "clvm_mod"), "OPERATORS_LATEST_VERSION"),
    }


def render(x, repo):
    dg = hashlib.sha256()
    for k in sorted(FILES):
        dg.update(open(os.path.join(repo, FILES[k]), "rb").read())
    L = []
    A = L.append
    A("/-")
    A("  Generated/Opts.lean — GENERATED by tools/translate_c11.py from the Rust sources; do not edit.")
    A("  Sources: " + ", ".join(FILES[k] for k in sorted(FILES)))
    A(f"  combined sha256: {dg.hexdigest()}")
    A("-/")
    A("import ChialispModel.Sys.Opts")
    A("set_option linter.unusedVariables false")
    A("")
    A("namespace Gen")
    A("open Opts")
    A("")
    A("/-- dialect.rs constants -/")
    A(f"def optStrategyBaseStepping : Int := {x['dialects']['base']}")
    A(f"def maxStepping : Int := {x['dialects']['max']}")
    A(f"/-- classic/clvm/mod.rs OPERATORS_LATEST_VERSION -/")
    A(f"def operatorsLatestVersion : Nat := {x['latest']}")
    A("")
    df = x["defaults"]
    A("/-- `DefaultCompilerOpts::new` -/")
    A("def defaultOpts : Opts :=")
    A(f"  {{ dialect := Dialect.classic, stdenv := {df['stdenv']}, optimize := {df['optimize']}, "
      f"frontendOpt := {df['frontend_opt']}, searchPaths := [{', '.join(lean_str(s) for s in df['dirs'])}], disVer := none }}")
    A("")
    A("/-- `KNOWN_DIALECTS` (name bytes, accepted dialect), in source order -/")
    A("def knownDialects : List (Bytes × Dialect) := [")
    rows = []
    for name, d in x["dialects"]["table"]:
        st = "none" if d["stepping"] == "none" else f"some {d['stepping']}"
        rows.append(f"  ({lean_bytes(name)}, {{ stepping := {st}, strict := {d['strict']}, intFix := {d['int_fix']} }})  -- {name}")
    # comments must stay after the comma-separated entries: put comma before the comment
    fixed = []
    for i, r in enumerate(rows):
        code, _, com = r.partition("  -- ")
        fixed.append(code + ("," if i + 1 < len(rows) else "") + "  -- " + com)
    L.extend(fixed)
    A("]")
    A("")
    A("def knownDialectNames : List String := [" + ", ".join(lean_str(n) for n, _ in x["dialects"]["table"]) + "]")
    A("")
    A("/-- `get_optimizer` (compiler/optimize/mod.rs) -/")
    A("def getOptimizer (stepping : Option Int) (optimize : Bool) : OptimizerChoice :=")
    A("  match stepping with")
    A(f"  | some s => {x['optimizer']['some']}")
    A(f"  | none => {x['optimizer']['none']}")
    A("")
    lib = x["lib"]
    A("/-! ### library entry (`clvmc::compile_clvm_text[_maybe_opt]`, `compile_clvm[_inner]`, py / wasm bindings) -/")
    A("")
    A("/-- base options built by `compile_clvm` (file-to-file) -/")
    A(f"def libBase (sp : List String) : Opts := {lib['base']}")
    A("/-- base options built by the python binding (`run_clvm_compilation`) -/")
    A(f"def pyBase (sp : List String) : Opts := {x['bind']['py']}")
    A("/-- base options built by the wasm binding (`compile`) -/")
    A(f"def wasmBase (sp : List String) : Opts := {x['bind']['wasm']}")
    A("/-- the constant `compile_clvm_text` passes as `do_optimize` -/")
    A(f"def libDoOptimize : Bool := {lib['const']}")
    A("/-- `compile_clvm_text_maybe_opt` -/")
    A("def deriveLibOpt (base : Opts) (d : Dialect) (doOptimize : Bool) : Pipeline :=")
    A("  match d.stepping with")
    A(f"  | some stepping => .modern ({lib['chain']}) ({lib['post']})")
    A("  | none => .classic base.searchPaths")
    A("/-- `compile_clvm_text` on `compile_clvm`'s base options -/")
    A("def deriveLib (sp : List String) (d : Dialect) : Pipeline := deriveLibOpt (libBase sp) d libDoOptimize")
    A(f"def libDetectInput : String := {lean_str(lib['detect'])}")
    A("")
    cli = x["cli"]
    A("/-! ### command line (`RunAndCompileInputData::new`, `compile_modern`, `launch_tool`, `cldb`) -/")
    A("")
    A("def cliBase (sp : List String) (d : Dialect) (doOptimize : Bool) (ver : Option Nat) : Opts :=")
    A(f"  {cli['base']}")
    A("def cliRefine (o : Opts) (d : Dialect) (doOptimize : Bool) (sp : List String) (ver : Option Nat) : Opts :=")
    A("  match d.stepping with")
    A(f"  | some stepping => {cli['refine']}")
    A("  | none => o")
    A("/-- `RunAndCompileInputData::new(..).opts`; `doOptimize` is the `-O` flag -/")
    A("def cliOpts (sp : List String) (d : Dialect) (doOptimize : Bool) (ver : Option Nat) : Opts :=")
    A("  cliRefine (cliBase sp d doOptimize ver) d doOptimize sp ver")
    A("/-- the flag `compile_modern` hands to `maybe_finalize_program_via_classic_optimizer` -/")
    A(f"def cliPost (doOptimize : Bool) : Bool := {cli['post']}")
    A("/-- `run` (`launch_tool`): sigil programs short-circuit to `compile_modern`, others run stage 2 -/")
    A("def deriveCli (sp : List String) (d : Dialect) (optimizeFlag : Bool) : Pipeline :=")
    A(f"  if d.stepping.isSome then .modern (cliOpts sp d optimizeFlag ({cli['cli_ver']})) (cliPost optimizeFlag)")
    A("  else .classic sp")
    A("/-- `cldb`: every source argument goes through `compile_modern` -/")
    A("def deriveCldb (sp : List String) (d : Dialect) (optimizeFlag : Bool) : Pipeline :=")
    A(f"  .modern (cliOpts sp d optimizeFlag ({cli['cldb_ver']})) (cliPost optimizeFlag)")
    A(f"def cliDetectInput : String := {lean_str(cli['detect'])}")
    A("")
    deps = x["deps"]
    A("/-! ### dependency scan (`preprocessor::gather_dependencies`) — front end only -/")
    A("")
    A("def depsBase (base : Opts) (d : Dialect) : Opts :=")
    A(f"  {deps['base']}")
    A("def deriveDeps (base : Opts) (d : Dialect) : Opts :=")
    A("  match d.stepping with")
    A(f"  | some stepping => (fun (o : Opts) => {deps['refine']}) (depsBase base d)")
    A("  | none => depsBase base d")
    A("")
    A("end Gen")
    return "\n".join(L) + "\n"


def translate(repo, out_path):
    x = extract_all(repo)
    text = render(x, repo)
    os.makedirs(os.path.dirname(out_path), exist_ok=True)
    old = open(out_path).read() if os.path.exists(out_path) else None
    if old != text:
        with open(out_path, "w") as fh:
            fh.write(text)
    return x


if __name__ == "__main__":
    repo = sys.argv[1] if len(sys.argv) > 1 else os.environ.get("VERIF_REPO", "/repo")
    root = os.path.dirname(os.path.dirname(os.path.abspath(__file__)))
    try:
        translate(repo, os.path.join(root, "lean", "ChialispModel", "Generated", "Opts.lean"))
    except ExtractError as e:
        print("translate_c11: EXTRACTION FAILED:", e)
        sys.exit(1)
    print("ok")
