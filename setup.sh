#!/bin/sh
# Build the framework from files on disk only (offline): Lean model + proofs + native driver,
# and the Rust correspondence harness against /repo's current working tree.
set -e
cd "$(dirname "$0")"
export RUSTUP_TOOLCHAIN=stable-x86_64-unknown-linux-gnu CARGO_NET_OFFLINE=true
(cd lean && lake build ChialispModel modeld)
[ -f harness/Cargo.lock ] || cp /repo/Cargo.lock harness/Cargo.lock
(cd harness && cargo build --release --offline)
echo setup-ok
